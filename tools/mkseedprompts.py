#!/usr/bin/env python3
"""tools/mkseedprompts.py <round-tag> <outdir> [extra-meta-dirs...]: write one seeder prompt per property.

A seeder is a fresh sub-agent that gets ONLY the property text (statement, quantifier, anchors), a scratch worktree
/tmp/<tag>-cNN of /repo and sandbox facts - nothing from /verif.  The prompt lists one-line summaries of the changes
already tried for that property (so rounds do not repeat themselves); those summaries describe earlier seeded changes,
not the verification machinery.
"""
import glob, json, os, sys

tag, out = sys.argv[1], sys.argv[2]
extra = sys.argv[3:]
os.makedirs(out, exist_ok=True)
props = [json.loads(l) for l in open("/verif/properties.jsonl") if l.strip()]
tried = {}
for f in sorted(glob.glob("/verif/seeded/*/meta.json")) + [os.path.join(d, "meta.json") for d in extra]:
    try:
        m = json.load(open(f))
    except Exception:
        continue
    tried.setdefault(m.get("property"), []).append(" ".join(str(m.get("summary", "")).split())[:260])

FOCUS = """ (a) a particular multi-step SEQUENCE of public calls on one object (state left behind by an earlier call, a cache keyed too coarsely, a setter that forgets to invalidate something derived, an exception part-way through an operation that leaves the object half-updated and a later call that trusts it),
 (b) an UNUSUAL but legal input: boundary values (exactly 0, exactly 0.5, exactly equal values, a single q-point, one atom, one band, mesh number 1), extreme aspect ratios or scales (lattice constants of 0.5 or 500, masses of 1e-3 or 1e3, temperatures of 1e-3 K or 1e5 K, hundreds of atoms), negative or > 1 fractional coordinates, non-contiguous / Fortran-ordered / int32-vs-int64 / float32 arrays, lists or tuples instead of arrays, negative matrix entries, left-handed lattices, unusual species order or symbols,
 (c) TWO cooperating sites that each look fine alone (a helper's contract or a storage convention changed and only some of its callers adapted; a writer and its reader changed consistently but a third consumer not; a default changed in one place and documented/assumed in another),
 (d) a particular thread count, OpenMP vs serial build, or a size threshold above which a different code path is taken,
 (e) a COMBINATION of two options or settings that are each exercised alone but rarely together (for example NAC with compact force constants and a non-diagonal supercell; eigenvectors with band selection and symmetry off; a primitive matrix together with a non-default tolerance),
 (g) an ERROR PATH or partial failure: an exception raised part-way through a public operation (bad argument, unreadable file, non-converged fit) that leaves the object in a half-updated state which a later, valid call silently trusts; an input that used to be rejected with a clear error is now accepted and gives wrong results (or a valid input is now rejected only under a rare condition),
 (h) the DESCRIPTION of the crystal: left-handed lattice vectors (negative cell volume), a sheared / non-reduced / permuted basis, atoms outside [0,1), a primitive cell whose atom order differs from the order of first appearance in the supercell, a supercell matrix with negative or large off-diagonal entries - results must not depend on such choices,
 (i) the TYPE of an argument: float32 / int32 / int64 / Fortran-ordered / non-contiguous / read-only arrays, Python lists or tuples, numpy scalars vs Python numbers, str vs bytes vs pathlib paths, dict subclasses - where the code converts or copies in one place but not another,
 (f) a numerical shortcut that is exact for round numbers and textbook cells but loses the property for generic real-valued data (a tolerance with the wrong unit or the wrong power, a comparison done before instead of after a transformation, rounding that assumes a scale, an early exit or skip condition that can be met by non-trivial data, an accumulation in lower precision)."""

for p in props:
    i = p["id"]
    n = i.lower()
    wt = "/tmp/%s-%s" % (tag, n)
    a = p["anchors"]
    anchors = "files " + ", ".join(a.get("files", [])) + "; mechanisms: " + "; ".join(m["name"] for m in a.get("mechanism", [])) + "."
    tl = "\n".join("- " + t for t in tried.get(i, [])) or "- (none yet)"
    txt = f"""You are testing how well a verification suite detects regressions in the Python/C package phonopy. Work ONLY inside the git worktree {wt} (a checkout of phonopy). Do not look at or touch /verif or /repo or any directory other than {wt} and new files under {wt}-out/.

Semantic property that must hold ({i}): "{p['statement']}"
Quantifier: {p['quantifier']['text']}
Code the property is anchored in: {anchors}

Task: produce ONE realistic change to the source under {wt} (Python and/or C) that BREAKS this property while everything still compiles/imports and the existing test suite still passes exactly as before. It must look like a plausible refactoring, optimisation, clean-up or bug fix gone wrong that a maintainer could merge, and it must be SUBTLE: choose something that only manifests under ONE of
{FOCUS}
Do NOT produce a change that an ordinary first test (a cubic NaCl/Si example with default options) would expose. Choose a file/mechanism and a KIND of defect DIFFERENT from these, which have already been tried for this property (do not repeat or vary them trivially; prefer a focus letter and a source file none of them used; in this round prefer the letters (g), (h), (i) and (e)):
{tl}

Sandbox facts: the compiled extension phonopy._phonopy is NOT built here, so only 81 tests of the suite pass: `cd {wt} && /venv/bin/python -m pytest -q -p no:cacheprovider --timeout=900 2>&1 | tail -3` must still say 81 passed after your change (compare the set of passing test ids with the unmodified tree if in doubt). The C kernels compile with `gcc -O2 -Wall -fPIC -shared -fopenmp -DTHM_EPSILON=1e-10 c/phonopy.c c/dynmat.c c/derivative_dynmat.c c/rgrid.c c/tetrahedron_method.c -o <dir>/libphpy.so -lm` and are callable through ctypes (signatures in c/phonopy.h). To run Python code that does `import phonopy._phonopy as phonoc`, write a small ctypes stand-in module (function names and argument order exactly as the `py_*` glue functions in c/_phonopy.cpp) and register it as sys.modules['phonopy._phonopy'] before importing phonopy; use PYTHONPATH=<tree> and /venv/bin/python (numpy, spglib, h5py, yaml available; scipy is not in /venv but can be installed for your demo only with `/venv/bin/pip install --no-index --find-links /opt/veriftools/wheels --no-deps --target {wt}-out/deps scipy`). symfc, seekpath, pypolymlp are not available. Simple harmonic test crystals: pair-potential force constants Phi(i,j) = -sum_images [a(r) I + b(r) r r^T], Phi(i,i) = -sum_(j!=i) Phi(i,j).

Deliver in {wt}-out/: `patch.diff` (output of `git -C {wt} diff`), `demo.py` (a small program that exits 0 on the unmodified tree and non-zero on the patched tree, taking the tree path as argv[1] and building what it needs from that tree into a temp dir; it must not depend on files outside the tree and the standard /venv, except an optional scipy installed by itself into a temp dir), and `meta.json` with keys: property ("{i}"), summary, what_it_needs_to_manifest, files_changed, how_demo_was_run. Verify both runs of demo.py yourself (pristine copy via `git -C {wt} archive HEAD | tar -x -C <dir>`), remove temp dirs you created outside {wt}-out, and leave the worktree WITH the patch applied. Final message: a 5-line summary.
"""
    open(os.path.join(out, i + ".txt"), "w").write(txt)
print("wrote", len(props), "prompts to", out)
