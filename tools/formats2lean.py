#!/usr/bin/env python3
"""T-formats: inventory of the fixed-point number formats of phonopy's text writers.

Walks phonopy/file_IO.py, phonopy/interface/phonopy_yaml.py and phonopy/structure/atoms.py with
`ast` and records, for every string that formats floats with `%W.kf` / `%f` / `{x:.kf}`:
the enclosing function, the line, the list of (width, precision) and whether two consecutive
number fields are written back to back (no separating character between them; this includes
`("%15.8f" * 6)` where the repeated string ends and starts with a conversion).

Output: lean/PhononModel/Gen/Formats.lean (a Mathlib-free table `PhononModel.Gen.formats`) and,
with --json, the same as JSON on stdout.  Anything the walker cannot classify (a `%`-format whose
left side is not a literal / literal * int / sep.join([literal] * int)) is reported with
`adjacent = true` and site suffix " (unclassified)" so that the Lean side fails loudly.
"""
import ast
import json
import os
import re
import sys

FILES = ["phonopy/file_IO.py", "phonopy/interface/phonopy_yaml.py", "phonopy/structure/atoms.py"]
SPEC = re.compile(r"%(\d*)(?:\.(\d+))?f")
FSPEC = re.compile(r"\{[^{}:]*:(\d*)(?:\.(\d+))?f\}")


def fields(text, regex):
    """[(width, prec, start, end)] of the float conversions in a literal"""
    out = []
    for m in regex.finditer(text):
        out.append((int(m.group(1) or 0), int(m.group(2) if m.group(2) is not None else 6), m.start(), m.end()))
    return out


def analyse_literal(text, repeat=1, joiner=None, regex=SPEC):
    fs = fields(text, regex)
    if not fs:
        return None
    adjacent = False
    for a, b in zip(fs, fs[1:]):
        if text[a[3]:b[2]] == "":
            adjacent = True
    if repeat > 1:
        between = text[fs[-1][3]:] + ("" if joiner is None else joiner) + text[:fs[0][2]]
        if between == "":
            adjacent = True
    return [(w, k) for (w, k, _, _) in fs], adjacent, len(fs) * repeat


def const_str(node):
    return node.value if isinstance(node, ast.Constant) and isinstance(node.value, str) else None


def const_int(node):
    return node.value if isinstance(node, ast.Constant) and isinstance(node.value, int) else None


def classify_left(node):
    """left operand of `%`: literal | literal * n | sep.join([literal] * n)"""
    s = const_str(node)
    if s is not None:
        return analyse_literal(s)
    if isinstance(node, ast.BinOp) and isinstance(node.op, ast.Mult):
        s, n = const_str(node.left), const_int(node.right)
        if s is not None and n is not None:
            return analyse_literal(s, repeat=n)
    if (isinstance(node, ast.Call) and isinstance(node.func, ast.Attribute) and node.func.attr == "join"
            and const_str(node.func.value) is not None and len(node.args) == 1):
        arg = node.args[0]
        if isinstance(arg, ast.BinOp) and isinstance(arg.op, ast.Mult) and isinstance(arg.left, ast.List) and len(arg.left.elts) == 1:
            s, n = const_str(arg.left.elts[0]), const_int(arg.right)
            if s is not None and n is not None:
                return analyse_literal(s, repeat=n, joiner=const_str(node.func.value))
    return "unclassified"


def scan(repo):
    rows = []
    for rel in FILES:
        path = os.path.join(repo, rel)
        tree = ast.parse(open(path).read())
        parents = {}
        for node in ast.walk(tree):
            for ch in ast.iter_child_nodes(node):
                parents[ch] = node

        def func_of(node):
            while node in parents:
                node = parents[node]
                if isinstance(node, (ast.FunctionDef, ast.AsyncFunctionDef)):
                    return node.name
            return "<module>"

        mod = os.path.splitext(os.path.basename(rel))[0]
        for node in ast.walk(tree):
            res = None
            if isinstance(node, ast.BinOp) and isinstance(node.op, ast.Mod):
                left = node.left
                txt = ast.get_source_segment(open(path).read(), left) or ""
                if "f" not in txt or "%" not in txt:
                    continue
                res = classify_left(left)
                if res is None:
                    continue
            elif isinstance(node, ast.JoinedStr):
                specs = []
                for v in node.values:
                    if isinstance(v, ast.FormattedValue) and v.format_spec is not None:
                        spec = "".join(const_str(x) or "" for x in v.format_spec.values)
                        m = re.fullmatch(r"(\d*)(?:\.(\d+))?f", spec)
                        if m:
                            specs.append((int(m.group(1) or 0), int(m.group(2) if m.group(2) is not None else 6)))
                if not specs:
                    continue
                # consecutive FormattedValues without a literal in between
                adjacent = any(isinstance(a, ast.FormattedValue) and isinstance(b, ast.FormattedValue) for a, b in zip(node.values, node.values[1:]))
                res = (specs, adjacent, len(specs))
            elif (isinstance(node, ast.Call) and isinstance(node.func, ast.Attribute) and node.func.attr == "format"
                  and const_str(node.func.value) is not None):
                res = analyse_literal(const_str(node.func.value), regex=FSPEC)
                if res is None:
                    continue
            else:
                continue
            site = "%s.%s" % (mod, func_of(node))
            if res == "unclassified":
                rows.append(dict(site=site + " (unclassified)", line=node.lineno, width=0, prec=0, count=0, adjacent=True))
                continue
            specs, adjacent, count = res
            for (w, k) in sorted(set(specs)):
                rows.append(dict(site=site, line=node.lineno, width=w, prec=k, count=count, adjacent=bool(adjacent)))
    rows.sort(key=lambda r: (r["site"], r["line"], r["width"], r["prec"]))
    return rows


def emit(rows, repo):
    lines = ["-- generated by tools/formats2lean.py from %s — do not edit" % ", ".join(FILES),
             "namespace PhononModel.Gen",
             "",
             "/-- one fixed-point number format of a text writer: `\"%W.kf\"` written `count` times per line;",
             "`adjacent` = two number fields are written back to back, without a separating character -/",
             "structure Fmt where",
             "  site : String",
             "  line : Nat",
             "  width : Nat",
             "  prec : Nat",
             "  count : Nat",
             "  adjacent : Bool",
             "  deriving DecidableEq, Repr",
             "",
             "def formats : List Fmt := ["]
    body = []
    for r in rows:
        body.append('  { site := "%s", line := %d, width := %d, prec := %d, count := %d, adjacent := %s }' % (
            r["site"], r["line"], r["width"], r["prec"], r["count"], "true" if r["adjacent"] else "false"))
    lines.append(",\n".join(body))
    lines += ["]", "", "end PhononModel.Gen", ""]
    return "\n".join(lines)


def main():
    repo = os.environ.get("VERIF_REPO", "/repo")
    here = os.path.dirname(os.path.dirname(os.path.abspath(__file__)))
    rows = scan(repo)
    if "--json" in sys.argv:
        json.dump(rows, sys.stdout, indent=1)
        return
    out = os.path.join(here, "lean", "PhononModel", "Gen", "Formats.lean")
    text = emit(rows, repo)
    os.makedirs(os.path.dirname(out), exist_ok=True)
    if not os.path.exists(out) or open(out).read() != text:
        tmp = out + ".tmp%d" % os.getpid()
        with open(tmp, "w") as f:
            f.write(text)
        os.replace(tmp, out)
    print("%d formats -> %s" % (len(rows), out))


if __name__ == "__main__":
    main()
