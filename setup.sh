#!/bin/sh
# MANIFEST.setup_cmd: offline build of the framework from files on disk only.
set -e
cd "$(dirname "$0")"
mkdir -p .build .deps evidence replays
# scipy (QHA / EOS fitting) is not in /venv; install the wheel into /verif/.deps (never into /venv)
if [ ! -d .deps/scipy ]; then
  PIP_NO_INDEX=1 /venv/bin/pip install --quiet --no-index --find-links /opt/veriftools/wheels --no-deps --target .deps scipy || echo "warning: scipy wheel not installed"
fi
# Lean: models, lemmas, property theorems (incremental afterwards)
cd lean
lake build PhononModel 2>&1 | tail -3
