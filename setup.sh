#!/bin/sh
# MANIFEST.setup_cmd: offline build of the framework from files on disk only.
cd "$(dirname "$0")" || exit 1
mkdir -p .build .deps evidence replays
# scipy (QHA / EOS fitting) is not in /venv; install the wheel into /verif/.deps (never into /venv)
if [ ! -d .deps/scipy ]; then
  PIP_NO_INDEX=1 /venv/bin/pip install --quiet --no-index --find-links /opt/veriftools/wheels --no-deps --target .deps scipy || echo "warning: scipy wheel not installed"
fi
# Lean: models, lemmas, property theorems (each check rebuilds its own module incrementally;
# a module that fails here is reported by the check that owns it, not by setup)
cd lean || exit 1
for f in PhononModel/Props/C*.lean; do
  m="PhononModel.Props.$(basename "$f" .lean)"
  lake build "$m" 2>&1 | tail -1
done
for f in Drivers/C*.lean; do
  for m in $(sed -n 's/^import \(PhononModel\.[A-Za-z0-9_.]*\).*/\1/p' "$f"); do lake build "$m" 2>&1 | tail -1; done
done
exit 0
